"""E1 ``jx2smt``: interpret a jaxpr (traced from /repo's current source) over symbolic tensors.

A symbolic tensor is a numpy ``object`` array whose entries are scalars of :mod:`vf.sc`
(concrete numbers, exact Fractions, z3 terms, ``Cx`` pairs).  Numeric numpy arrays are *concrete*: any
equation whose operands are all concrete is executed by JAX itself (``eqn.primitive.bind``) -- constant folding
by the compiler's own implementation.  Data-movement primitives are executed by JAX on id arrays and the ids are
mapped back to terms, so index arithmetic is never re-implemented here.
"""
from __future__ import annotations

import itertools
import time
from fractions import Fraction

import jax
import jax.numpy as jnp
import numpy as np
import z3
from jax.extend import core as jcore

from . import sc
from .sc import Cx, NotEncodable, isz

# --------------------------------------------------------------------------- helpers on arrays


def is_obj(a):
    return isinstance(a, np.ndarray) and a.dtype == object


def obj0(v):
    out = np.empty((), dtype=object)
    out[()] = v
    return out


def lift(a):
    """anything array-like -> object array of canonical scalars."""
    if is_obj(a):
        return a
    a = np.asarray(a)
    out = np.empty(a.shape, dtype=object)
    if a.shape == ():
        out[()] = sc.canon(a[()])
        return out
    flat = out.reshape(-1)
    src = a.reshape(-1)
    if np.iscomplexobj(src):
        for i in range(src.size):
            flat[i] = Cx(float(src[i].real), float(src[i].imag))
    else:
        lst = src.tolist()
        for i in range(src.size):
            flat[i] = lst[i]
    return out


def has_z3(a):
    if not is_obj(a):
        return False
    for v in a.reshape(-1):
        if sc.is_symbolic_scalar(v):
            return True
    return False


def to_numeric(a, dtype=None):
    """object array without z3 entries -> numeric numpy array (Fractions become floats)."""
    if not is_obj(a):
        return np.asarray(a) if dtype is None else np.asarray(a).astype(dtype)
    flat = a.reshape(-1)
    anyc = any(isinstance(v, Cx) for v in flat)
    if anyc:
        vals = [complex(float(sc.cx(v).re), float(sc.cx(v).im)) for v in flat]
        out = np.array(vals, dtype=np.complex128).reshape(a.shape)
    else:
        vals = []
        for v in flat:
            if isz(v):
                raise NotEncodable("symbolic value where a concrete one is required (index / predicate / shape)")
            vals.append(v if isinstance(v, (bool, int)) else float(v))
        if all(isinstance(v, bool) for v in vals):
            out = np.array(vals, dtype=bool).reshape(a.shape)
        elif all(isinstance(v, (bool, int)) for v in vals):
            out = np.array(vals, dtype=np.int64).reshape(a.shape)
        else:
            out = np.array(vals, dtype=np.float64).reshape(a.shape)
    if dtype is not None:
        out = out.astype(dtype)
    return out


def demote_if_concrete(a, dtype):
    """object array holding only plain ints/bools/floats (no Fraction, no z3) -> numeric array of ``dtype``."""
    if not is_obj(a):
        return a
    for v in a.reshape(-1):
        if isz(v) or isinstance(v, Fraction):
            return a
        if isinstance(v, Cx) and (isz(v.re) or isz(v.im) or isinstance(v.re, Fraction) or isinstance(v.im, Fraction)):
            return a
    return to_numeric(a, dtype)


def ew(f, *args):
    """elementwise with numpy broadcasting; always returns an object ndarray."""
    args = [lift(a) for a in args]
    r = np.frompyfunc(f, len(args), 1)(*args)
    if not isinstance(r, np.ndarray):
        r = obj0(r)
    return r


def _ew2_dedup(f, a, b):
    """ew(f, a, b) for large arrays with many repeated operand pairs (padded / replicated data): f is evaluated once per
    distinct pair of operand *objects* and the result object is shared."""
    a, b = np.broadcast_arrays(lift(a), lift(b))
    af, bf = a.reshape(-1), b.reshape(-1)
    if af.size == 0:
        return ew(f, a, b)
    key = np.frompyfunc(lambda v: 2 * v.get_id() + 1 if isz(v) else 2 * id(v), 1, 1)  # hash-consed z3 terms: AST id; else object identity
    keys = np.stack([key(af).astype(np.int64), key(bf).astype(np.int64)], axis=1)
    _, first, inv = np.unique(keys, axis=0, return_index=True, return_inverse=True)
    vals = np.empty(len(first), dtype=object)
    for k, i in enumerate(first):
        vals[k] = f(af[i], bf[i])
    return vals[np.asarray(inv).reshape(-1)].reshape(a.shape)


def symarr(name, shape, sort="real", cplx=False):
    """fresh symbolic array; entries named name_i_j_k."""
    mk = {"real": z3.Real, "int": z3.Int, "bool": z3.Bool}[sort]
    out = np.empty(shape, dtype=object)
    if shape == ():
        out[()] = Cx(mk(name + "_re"), mk(name + "_im")) if cplx else mk(name)
        return out
    for idx in np.ndindex(*shape):
        n = name + "_" + "_".join(map(str, idx))
        out[idx] = Cx(mk(n + "_re"), mk(n + "_im")) if cplx else mk(n)
    return out


def fracarr(a):
    """concrete float array -> exact Fraction object array (exact mode input)."""
    a = np.asarray(a)
    out = np.empty(a.shape, dtype=object)
    flat = out.reshape(-1) if a.shape else None
    if a.shape == ():
        out[()] = _frac(a[()])
        return out
    src = a.reshape(-1)
    for i in range(src.size):
        flat[i] = _frac(src[i])
    return out


def _frac(v):
    if isinstance(v, (complex, np.complexfloating)):
        return Cx(Fraction(float(v.real)), Fraction(float(v.imag)))
    if isinstance(v, (bool, np.bool_)):
        return bool(v)
    if isinstance(v, (int, np.integer)):
        return int(v)
    return Fraction(float(v))


def variables_of(arrs):
    seen = {}
    def visit(t):
        stack = [t]
        while stack:
            t = stack.pop()
            if t.get_id() in visited:
                continue
            visited.add(t.get_id())
            if z3.is_const(t) and t.decl().kind() == z3.Z3_OP_UNINTERPRETED:
                seen[str(t)] = t
            else:
                stack.extend(t.children())
    visited = set()
    for a in arrs:
        for v in lift(a).reshape(-1):
            if isinstance(v, Cx):
                for p in (v.re, v.im):
                    if isz(p):
                        visit(p)
            elif isz(v):
                visit(v)
    return seen


# --------------------------------------------------------------------------- interpreter

_MOVE = {
    "slice", "dynamic_slice", "dynamic_update_slice", "pad", "concatenate", "squeeze", "reshape",
    "broadcast_in_dim", "transpose", "rev", "gather", "scatter", "copy", "copy_p", "expand_dims", "stack",
    "split", "unstack",
}
_IDENT = {
    "stop_gradient", "copy", "copy_p", "reshard", "mesh_cast", "pvary", "nonbatchable", "optimization_barrier",
    "reduce_precision", "sharding_constraint", "device_put", "pcast", "core_call_noop",
}
_CALL = {"jit", "pjit", "closed_call", "core_call", "remat", "checkpoint", "custom_jvp_call", "custom_vjp_call",
         "custom_vjp_call_jaxpr", "custom_lin", "run_state"}


def _known_true(t, guards):
    """t is one of the guard terms or a conjunction of them (syntactic check)."""
    if any(t.eq(g) for g in guards):
        return True
    if z3.is_and(t):
        return all(_known_true(ch, guards) for ch in t.children())
    return False


def _fold_out(x):
    """result of a folded (all-concrete) equation -> numpy; typed PRNG key arrays (random_wrap / random_split) stay jax arrays."""
    try:
        if jax.dtypes.issubdtype(x.dtype, jax.dtypes.prng_key):
            return x
    except Exception:
        pass
    return np.asarray(x)


class Interp:
    def __init__(self, unroll_bound=64, solve_stub=True):
        self.stats = {"eqns": 0, "folded": 0, "symbolic": 0, "while_iters": 0, "prims": {}}
        self.unroll_bound = unroll_bound
        self.unwinding = []  # z3 Bools that must be proved (cond false after K unrollings)
        self.side = []  # definedness side conditions (kind, must_hold, desc)
        self.solve_stub = solve_stub
        self.path = []  # current guard stack for side conditions

    # ------------------------------------------------------------------ driver
    def run(self, jaxpr, consts, args):
        env = {}

        def read(v):
            if isinstance(v, jcore.Literal):
                return np.asarray(v.val)
            return env[v]

        assert len(jaxpr.invars) == len(args), (len(jaxpr.invars), len(args))
        for v, c in zip(jaxpr.constvars, consts):
            env[v] = c if is_obj(c) else np.asarray(c)
        for v, a in zip(jaxpr.invars, args):
            env[v] = a if is_obj(a) else np.asarray(a)
        for e in jaxpr.eqns:
            ins = [read(v) for v in e.invars]
            outs = self.eqn(e, ins)
            if not e.primitive.multiple_results and not isinstance(outs, (list, tuple)):
                outs = [outs]
            assert len(outs) == len(e.outvars), (e.primitive.name, len(outs), len(e.outvars))
            for v, o in zip(e.outvars, outs):
                if is_obj(o):
                    if hasattr(v, "aval") and tuple(o.shape) != tuple(v.aval.shape):
                        raise AssertionError(f"shape mismatch in {e.primitive.name}: {o.shape} vs {v.aval.shape}")
                    o = demote_if_concrete(o, v.aval.dtype) if hasattr(v, "aval") else o
                env[v] = o
        return [read(v) for v in jaxpr.outvars]

    def run_closed(self, cj, args):
        return self.run(cj.jaxpr, cj.consts, args)

    # ------------------------------------------------------------------ one equation
    def eqn(self, e, ins):
        p = e.primitive.name
        prm = e.params
        st = self.stats
        st["eqns"] += 1
        anyobj = any(is_obj(a) for a in ins)
        if p in _CALL:
            return self._call(e, ins)
        if p == "cond":
            return self._cond(e, ins)
        if p == "while":
            return self._while(e, ins)
        if p == "scan":
            return self._scan(e, ins)
        if p in ("debug_callback", "io_callback", "debug_print"):
            if p == "io_callback":
                return [np.zeros(v.aval.shape, v.aval.dtype) for v in e.outvars]
            return []
        if p == "unvmap_any":
            return self._reduce_bool(ins[0], None, sc.or_, False)
        if p == "unvmap_max":
            return ins[0]
        if p == "select_if_vmap":
            if not (is_obj(ins[0]) and has_z3(ins[0])) and np.ndim(ins[0]) == 0:
                return ins[1] if bool(to_numeric(ins[0])) else ins[2]  # concrete unbatched predicate (operands may be float0)
            g = getattr(self, "_path_true", None)
            if g and is_obj(ins[0]) and ins[0].size == 1 and isz(ins[0].reshape(-1)[0]) and _known_true(ins[0].reshape(-1)[0], g):
                return ins[1]  # exit-chain mode: the loop predicate is known true on this path (unbatched select_if_vmap = its 2nd operand)
            return self._select_n(ins[0], [ins[2], ins[1]])
        if p in _IDENT:
            return ins[0] if not e.primitive.multiple_results else list(ins)
        if not anyobj:
            st["folded"] += 1
            r = e.primitive.bind(*[jnp.asarray(a) for a in ins], **prm)
            if e.primitive.multiple_results:
                return [_fold_out(x) for x in r]
            return _fold_out(r)
        st["symbolic"] += 1
        st["prims"][p] = st["prims"].get(p, 0) + 1
        h = getattr(self, "p_" + p.replace("-", "_"), None)
        if h is not None:
            return h(e, ins)
        if p in _MOVE:
            return self._move(e, ins)
        if not any(is_obj(a) and has_z3(a) for a in ins):
            # no handler, but every operand is a known number (object arrays of exact rationals): evaluate the real
            # primitive on the float values, as the real run does (e.g. ``lu`` of an identity matrix)
            st["concretised"] = st.get("concretised", 0) + 1
            cins = [jnp.asarray(to_numeric(a, e.invars[i].aval.dtype)) if is_obj(a) else jnp.asarray(a) for i, a in enumerate(ins)]
            r = e.primitive.bind(*cins, **prm)
            if e.primitive.multiple_results:
                return [_fold_out(x) for x in r]
            return _fold_out(r)
        raise NotEncodable(f"primitive {p}")

    # ------------------------------------------------------------------ calls / control
    def _call(self, e, ins):
        prm = e.params
        name = prm.get("name", "")
        if self.solve_stub and name in ("solve", "_solve", "inv", "_lu_solve") and any(is_obj(a) for a in ins):
            r = self._linalg_stub(name, e, ins)
            if r is not None:
                return r
        cj = prm.get("jaxpr") or prm.get("call_jaxpr") or prm.get("fun_jaxpr")
        if cj is None:
            raise NotEncodable(f"call primitive {e.primitive.name} without jaxpr")
        if hasattr(cj, "jaxpr"):
            out = self.run(cj.jaxpr, cj.consts, ins)
        else:
            out = self.run(cj, [], ins)
        return out

    def _cond(self, e, ins):
        prm = e.params
        idx = ins[0]
        ops = ins[1:]
        branches = prm["branches"]
        if is_obj(idx) and has_z3(idx):
            iv = idx.reshape(-1)[0]
            outs = [self.run(br.jaxpr, br.consts, ops) for br in branches]
            res = []
            for k in range(len(outs[0])):
                acc = outs[-1][k]
                for b in range(len(branches) - 2, -1, -1):
                    if isz(iv) and z3.is_bool(iv):
                        c = sc.not_(iv) if b == 0 else iv
                    else:
                        c = sc.eq(iv, b) if b > 0 else sc.le(iv, 0)
                    acc = ew(lambda x, y, c=c: sc.ite(c, x, y), outs[b][k], acc)
                res.append(acc)
            return res
        i = int(to_numeric(idx).reshape(-1)[0])
        i = max(0, min(len(branches) - 1, i))
        br = branches[i]
        return self.run(br.jaxpr, br.consts, ops)

    def _while(self, e, ins):
        prm = e.params
        cj, bj = prm["cond_jaxpr"], prm["body_jaxpr"]
        cn, bn = prm["cond_nconsts"], prm["body_nconsts"]
        cc, bc, st = list(ins[:cn]), list(ins[cn:cn + bn]), list(ins[cn + bn:])
        if getattr(self, "while_exit_chain", False):
            return self._while_exit_chain(e, cj, bj, cc, bc, st)
        it = 0
        guards = []
        while True:
            c = self.run(cj.jaxpr, cj.consts, cc + st)[0]
            if is_obj(c) and has_z3(c):
                cz = c.reshape(-1)[0]
                if it >= self.unroll_bound:
                    self.unwinding.append(z3.Not(cz))
                    break
                new = self.run(bj.jaxpr, bj.consts, bc + st)
                st = [ew(lambda x, y, cz=cz: sc.ite(cz, x, y), n, o) for n, o in zip(new, st)]
                st = [demote_if_concrete(s, v.aval.dtype) for s, v in zip(st, e.outvars)]
                it += 1
                continue
            if not bool(to_numeric(c).reshape(-1)[0]):
                break
            st = self.run(bj.jaxpr, bj.consts, bc + st)
            it += 1
            if it > 100000:
                raise NotEncodable("while loop does not terminate")
        self.stats["while_iters"] += it
        return st

    def _while_exit_chain(self, e, cj, bj, cc, bc, st):
        """opt-in (``interp.while_exit_chain = True``) path-sensitive unrolling of a while loop with symbolic predicates:
        the body is always evaluated on the un-merged state of the path "every earlier predicate was true" (so a loop
        counter / time index stays concrete along that path) and the result is the exit chain
        ite(c0, ite(c1, ... , s1), s0).  Same semantics as the merging scheme of ``_while``."""
        it = 0
        exits = []  # (predicate_i, state_i): state when the loop is left at iteration i
        while True:
            c = self.run(cj.jaxpr, cj.consts, cc + st)[0]
            if is_obj(c) and has_z3(c):
                cz = c.reshape(-1)[0]
                if it >= self.unroll_bound:
                    self.unwinding.append(z3.Implies(z3.And(*[g for g, _ in exits]) if exits else z3.BoolVal(True), z3.Not(cz)))
                    break
                exits.append((cz, st))
                saved_guards = getattr(self, "_path_true", None)
                self._path_true = [g for g, _ in exits]
                try:
                    st = self.run(bj.jaxpr, bj.consts, bc + st)
                finally:
                    self._path_true = saved_guards
                st = [demote_if_concrete(s_, v.aval.dtype) if is_obj(s_) else s_ for s_, v in zip(st, e.outvars)]
            else:
                if not bool(to_numeric(c).reshape(-1)[0]):
                    break
                st = self.run(bj.jaxpr, bj.consts, bc + st)
            it += 1
            if it > 100000:
                raise NotEncodable("while loop does not terminate")
        self.stats["while_iters"] += it
        res = st
        for cz, s_i in reversed(exits):
            res = [ew(lambda x, y, cz=cz: sc.ite(cz, x, y), n, o) for n, o in zip(res, s_i)]
        return [demote_if_concrete(s, v.aval.dtype) for s, v in zip(res, e.outvars)]

    def _scan(self, e, ins):
        prm = e.params
        if "num_consts" in prm:
            nc, ncar = prm["num_consts"], prm["num_carry"]
        else:  # jax 0.11: the consts/carry/xs split is carried by the FlatTree param ft_in
            _parts = [list(p) for p in prm["ft_in"].update(list(range(len(ins)))).unpack()]
            nc, ncar = len(_parts[0]), len(_parts[1])
        length, rev = prm["length"], prm["reverse"]
        cj = prm["jaxpr"]
        consts, carry, xs = list(ins[:nc]), list(ins[nc:nc + ncar]), list(ins[nc + ncar:])
        ys = None
        order = range(length - 1, -1, -1) if rev else range(length)
        for i in order:
            xi = [x[i] if is_obj(x) else np.asarray(x)[i] for x in xs]
            xi = [x if isinstance(x, np.ndarray) else (obj0(x) if isinstance(x, (Cx, Fraction, z3.ExprRef)) else np.asarray(x)) for x in xi]
            out = self.run(cj.jaxpr, cj.consts, consts + carry + xi)
            carry = out[:ncar]
            y = out[ncar:]
            if ys is None:
                ys = [[None] * length for _ in y]
            for k, yk in enumerate(y):
                ys[k][i] = yk
        self.stats["while_iters"] += length
        res = list(carry)
        nys = len(e.outvars) - ncar
        for k in range(nys):
            if length == 0:
                v = e.outvars[ncar + k]
                res.append(np.zeros(v.aval.shape, v.aval.dtype))
            elif any(is_obj(y) for y in ys[k]):
                res.append(np.stack([lift(y) for y in ys[k]], axis=0))
            else:
                res.append(np.stack([np.asarray(y) for y in ys[k]], axis=0))
        return res

    # ------------------------------------------------------------------ data movement through ids
    def _move(self, e, ins, value_pos=None):
        p = e.primitive.name
        prm = e.params
        if value_pos is None:
            value_pos = {
                "slice": (0,), "dynamic_slice": (0,), "dynamic_update_slice": (0, 1), "pad": (0, 1),
                "concatenate": tuple(range(len(ins))), "squeeze": (0,), "reshape": (0,), "broadcast_in_dim": (0,),
                "transpose": (0,), "rev": (0,), "gather": (0,), "scatter": (0, 2), "copy": (0,), "copy_p": (0,),
                "expand_dims": (0,), "stack": tuple(range(len(ins))), "split": (0,), "unstack": (0,),
                "select_n": tuple(range(1, len(ins))),
            }[p]
        for i, a in enumerate(ins):
            if i not in value_pos and is_obj(a):
                ins = list(ins)
                ins[i] = to_numeric(a, e.invars[i].aval.dtype)
        dt = np.dtype(e.invars[value_pos[0]].aval.dtype)
        if np.issubdtype(dt, np.floating) and dt.itemsize >= 4:
            iddt = dt
        elif np.issubdtype(dt, np.complexfloating):
            iddt = dt
        elif np.issubdtype(dt, np.integer) and dt.itemsize >= 4:
            iddt = dt
        else:
            iddt = np.dtype(np.int32)
        pool = [None]
        args = []
        for i, a in enumerate(ins):
            if i in value_pos:
                a = lift(a)
                n = a.size
                base = len(pool)
                pool.extend(a.reshape(-1).tolist() if n else [])
                ids = np.arange(base, base + n).reshape(a.shape).astype(iddt)
                args.append(jnp.asarray(ids))
            else:
                args.append(jnp.asarray(a))
        if len(pool) >= 2**24 and iddt.itemsize == 4 and not np.issubdtype(iddt, np.integer):
            raise NotEncodable("id pool too large for float32 ids")
        r = e.primitive.bind(*args, **prm)
        outs = r if e.primitive.multiple_results else [r]
        res = []
        for o, ov in zip(outs, e.outvars):
            o = np.asarray(o)
            if np.iscomplexobj(o):
                o = o.real
            of = o.reshape(-1)
            out = np.empty(o.shape, dtype=object)
            flat = out.reshape(-1)
            for k in range(of.size):
                v = of[k]
                if v != v:  # NaN fill of an out-of-bounds gather
                    flat[k] = float("nan")
                else:
                    iv = int(v)
                    if iv <= 0 or iv >= len(pool):
                        # 0 = fill value produced by the primitive itself (e.g. gather fill for ints / dropped)
                        flat[k] = 0 if iv == 0 else float("nan")
                    else:
                        flat[k] = pool[iv]
            res.append(out)
        return res if e.primitive.multiple_results else res[0]

    def p_dynamic_slice(self, e, ins):
        """dynamic_slice whose start indices may be symbolic Ints: If-chain over the admissible starts (XLA clamps every
        start into [0, dim - size], so the first / last alternative are guarded by <= / >=).  Concrete starts -> _move."""
        idx = list(ins[1:])
        if not any(is_obj(a) and has_z3(a) for a in idx):
            return self._move(e, ins)
        op = lift(ins[0])
        sizes = tuple(int(v) for v in e.params["slice_sizes"])

        def build(d, starts):
            if d == len(sizes):
                return op[tuple(slice(s0, s0 + n) for s0, n in zip(starts, sizes))]
            hi = op.shape[d] - sizes[d]
            a = idx[d]
            if not (is_obj(a) and has_z3(a)):
                v = int(to_numeric(a).reshape(-1)[0])
                return build(d + 1, starts + [min(max(v, 0), hi)])
            t = a.reshape(-1)[0]
            if not z3.is_int(t):
                raise NotEncodable("dynamic_slice start index of non-Int sort")
            res = build(d + 1, starts + [hi])
            for v in range(hi - 1, -1, -1):
                c = (t <= 0) if v == 0 else (t == v)
                alt = build(d + 1, starts + [v])
                res = ew(lambda x, y, c=c: sc.ite(c, x, y), alt, res)
            return res

        return build(0, [])

    def p_fft(self, e, ins):
        """1-d DFT along the last axis as an explicit matrix product (quarter-turn twiddles exact, the others the float
        cos/sin values taken exactly)."""
        import math
        lens = tuple(int(v) for v in e.params["fft_lengths"])
        ft = e.params["fft_type"]
        kind = getattr(ft, "name", str(ft)).upper()
        kind = {"0": "FFT", "1": "IFFT", "2": "RFFT", "3": "IRFFT"}.get(kind, kind).split(".")[-1]
        if len(lens) != 1 or kind not in ("FFT", "IFFT", "RFFT"):
            raise NotEncodable(f"fft type {kind} lengths {lens}")
        n = lens[0]
        x = lift(ins[0])
        if x.shape[-1] != n:
            raise NotEncodable("fft length differs from the operand's last axis")
        sign = 1 if kind == "IFFT" else -1

        def tw(m):
            m %= n
            if (4 * m) % n == 0:
                q = (4 * m) // n
                return [(1, 0), (0, 1), (-1, 0), (0, -1)][q] if sign > 0 else [(1, 0), (0, -1), (-1, 0), (0, 1)][q]
            ang = 2 * math.pi * m / n
            return (math.cos(ang), sign * math.sin(ang))

        nout = n // 2 + 1 if kind == "RFFT" else n
        out = np.empty(x.shape[:-1] + (nout,), dtype=object)
        for pre in (np.ndindex(*x.shape[:-1]) if x.ndim > 1 else [()]):
            row = x[pre]
            for k in range(nout):
                acc = Cx(0, 0)
                for j in range(n):
                    wr, wi = tw(j * k)
                    acc = sc.add(acc, sc.mul(sc.cx(row[j]), Cx(wr, wi)))
                if kind == "IFFT":
                    acc = sc.div(acc, n)
                out[pre + (k,)] = acc
        return out

    def p_select_n(self, e, ins):
        return self._select_n(ins[0], ins[1:])

    def _select_n(self, which, cases):
        if not (is_obj(which) and has_z3(which)):
            w = to_numeric(which).astype(np.int64)
            cases = [lift(c) for c in cases]
            shp = np.broadcast_shapes(w.shape, *[c.shape for c in cases])
            w = np.broadcast_to(w, shp)
            cases = [np.broadcast_to(c, shp) for c in cases]
            out = np.empty(shp, dtype=object)
            if shp == ():
                out[()] = cases[int(w)][()]
                return out
            for k, c in enumerate(cases):
                m = w == k
                out[m] = c[m]
            return out
        if len(cases) == 2:
            return ew(lambda c, a, b: sc.ite(c if (not isz(c) or z3.is_bool(c)) else sc.ne(c, 0), b, a), which, cases[0], cases[1])
        def f(c, *cs):
            acc = cs[-1]
            for k in range(len(cs) - 2, -1, -1):
                acc = sc.ite(sc.eq(c, k), cs[k], acc)
            return acc
        return ew(f, which, *cases)

    def p_scatter_add(self, e, ins):
        op, ind, upd = ins
        prm = e.params
        ind = to_numeric(ind, e.invars[1].aval.dtype) if is_obj(ind) else ind
        dt = np.dtype(e.invars[0].aval.dtype)
        cplx = np.issubdtype(dt, np.complexfloating)
        fdt = dt if not cplx else np.dtype(np.float64 if dt.itemsize == 16 else np.float32)
        if not np.issubdtype(fdt, np.floating):
            raise NotEncodable("scatter-add on non-float operand")
        updl = lift(upd)
        # linear map: out[i] = op[i] + sum_j M[i,j] upd[j]; obtain M's sparsity via one scatter of ids when unique,
        # otherwise via the jacobian
        prm2 = dict(prm)
        zer = jnp.zeros(np.shape(op), dtype=dt)
        ones = jnp.ones(updl.shape, dtype=dt)
        cnt = np.asarray(e.primitive.bind(zer, jnp.asarray(ind), ones, **prm2)).real
        out = lift(op).copy()
        if cnt.max(initial=0) <= 1:
            ids = np.arange(1, updl.size + 1).reshape(updl.shape).astype(dt)
            moved = np.asarray(e.primitive.bind(zer, jnp.asarray(ind), jnp.asarray(ids), **prm2)).real
            uf = updl.reshape(-1)
            for idx in zip(*np.nonzero(moved)):
                out[idx] = sc.add(out[idx], uf[int(moved[idx]) - 1])
            return out
        f = lambda u: e.primitive.bind(zer, jnp.asarray(ind), u, **prm2)
        J = np.asarray(jax.jacfwd(f)(jnp.zeros(updl.shape, dtype=dt))).real
        J = J.reshape(out.size, updl.size)
        of = out.reshape(-1)
        uf = updl.reshape(-1)
        for i, j in zip(*np.nonzero(J)):
            of[i] = sc.add(of[i], sc.mul(float(J[i, j]) if J[i, j] != int(J[i, j]) else int(J[i, j]), uf[j]))
        return of.reshape(out.shape)

    def p_scatter_mul(self, e, ins):
        """x.at[idx].multiply(u): the index map is obtained from the primitive itself (ones as operand, distinct
        integer codes as updates); every target may be hit by at most one update."""
        op, ind, upd = ins
        prm = e.params
        ind = to_numeric(ind, e.invars[1].aval.dtype) if is_obj(ind) else ind
        dt = np.dtype(e.invars[0].aval.dtype)
        fdt = np.float64 if not np.issubdtype(dt, np.complexfloating) else np.complex128
        updl = lift(upd)
        ones = jnp.ones(np.shape(op), dtype=fdt)
        cnt = np.asarray(e.primitive.bind(ones, jnp.asarray(ind), 2 * jnp.ones(updl.shape, dtype=fdt), **prm)).real
        if cnt.max(initial=1) > 2:
            raise NotEncodable("scatter-mul with repeated target indices")
        codes = (np.arange(updl.size).reshape(updl.shape) + 2).astype(fdt)
        moved = np.asarray(e.primitive.bind(ones, jnp.asarray(ind), jnp.asarray(codes), **prm)).real
        out = lift(op).copy()
        uf = updl.reshape(-1)
        for idx in zip(*np.nonzero(moved != 1)):
            out[idx] = sc.mul(out[idx], uf[int(round(moved[idx])) - 2])
        return out

    # ------------------------------------------------------------------ elementwise
    def _ew1(f):
        return lambda self, e, ins: ew(f, ins[0])

    def _ew2(f):
        return lambda self, e, ins: ew(f, ins[0], ins[1])

    p_add = _ew2(sc.add)
    p_add_any = _ew2(sc.add)
    p_sub = _ew2(sc.sub)
    p_mul = _ew2(sc.mul)
    p_neg = _ew1(sc.neg)
    p_max = _ew2(sc.max_)
    p_min = _ew2(sc.min_)
    p_abs = _ew1(sc.abs_)
    p_sign = _ew1(sc.sign)
    p_lt = _ew2(sc.lt)
    p_le = _ew2(sc.le)
    p_gt = _ew2(sc.gt)
    p_ge = _ew2(sc.ge)
    p_eq = _ew2(sc.eq)
    p_ne = _ew2(sc.ne)
    p_and = _ew2(sc.and_)
    p_or = _ew2(sc.or_)
    p_not = _ew1(sc.not_)
    p_xor = _ew2(sc.xor_)
    p_real = _ew1(sc.real)
    p_imag = _ew1(sc.imag)
    p_conj = _ew1(sc.conj)
    p_floor = _ew1(sc.floor)
    p_ceil = _ew1(sc.ceil)
    p_tanh = _ew1(sc.tanh)
    p_cos = _ew1(sc.cos)
    p_sin = _ew1(sc.sin)
    p_square = _ew1(lambda a: sc.mul(a, a))

    def p_exp(self, e, ins):
        return ew(sc.cexp, ins[0])

    def p_log(self, e, ins):
        def f(a):
            if isz(a):
                self._side("log_domain", sc.toreal(a) > 0, "log argument > 0")
            return sc.log_(a)
        return ew(f, ins[0])

    def p_sqrt(self, e, ins):
        def f(a):
            if isz(a):
                self._side("sqrt_domain", sc.toreal(a) >= 0, "sqrt argument >= 0")
                return sc.UF.app("sqrt", a)
            return sc.sqrt(a)
        return ew(f, ins[0])

    def p_rsqrt(self, e, ins):
        def f(a):
            if isz(a):
                self._side("rsqrt_domain", sc.toreal(a) > 0, "rsqrt argument > 0")
                return sc.div(1, sc.UF.app("sqrt", a))
            return sc.div(1, sc.sqrt(a))
        return ew(f, ins[0])

    def p_div(self, e, ins):
        isint = np.issubdtype(np.dtype(e.outvars[0].aval.dtype), np.integer)
        def f(a, b):
            if sc.is_symbolic_scalar(b):
                if isinstance(b, Cx):
                    self._side("div_nonzero", z3.Or(sc.toz(b.re) != 0, sc.toz(b.im) != 0), "complex divisor != 0")
                else:
                    self._side("div_nonzero", b != 0, "divisor != 0")
            if isint:
                # XLA integer division truncates toward zero
                if not isz(a) and not isz(b):
                    q = abs(a) // abs(b)
                    return q if (a >= 0) == (b >= 0) else -q
                x, y = sc._pair(a, b)
                if not (z3.is_int(x) and z3.is_int(y)):
                    raise NotEncodable("integer division of non-Int terms")
                q = z3.If(x >= 0, x, -x) / z3.If(y >= 0, y, -y)
                return z3.If((x >= 0) == (y >= 0), q, -q)
            return sc.div(a, b)
        if np.size(ins[0]) >= 20000 and np.ndim(ins[1]) == 0 and not has_z3(ins[1]):
            # large replicated array / one concrete divisor: same result, evaluated once per distinct operand object
            d = lift(ins[1])[()]
            return _ew2_dedup(f, ins[0], np.full(np.shape(ins[0]), d, dtype=object))
        return ew(f, ins[0], ins[1])

    def p_rem(self, e, ins):
        def f(a, b):
            if not isz(a) and not isz(b):
                import math
                return math.fmod(a, b) if isinstance(a, float) or isinstance(b, float) else (abs(a) % abs(b)) * (1 if a >= 0 else -1)
            x, y = sc._pair(a, b)
            if z3.is_int(x) and z3.is_int(y):
                r = z3.If(x >= 0, x, -x) % z3.If(y >= 0, y, -y)
                return z3.If(x >= 0, r, -r)
            # real fmod: a - trunc(a/b)*b
            q = x / y
            t = z3.If(q >= 0, z3.ToReal(z3.ToInt(q)), -z3.ToReal(z3.ToInt(-q)))
            return x - t * y
        return ew(f, ins[0], ins[1])

    def p_integer_pow(self, e, ins):
        n = e.params["y"]
        def f(a):
            if n < 0 and isz(a):
                self._side("div_nonzero", a != 0, "base of negative power != 0")
            return sc.integer_pow(a, n)
        return ew(f, ins[0])

    def p_pow(self, e, ins):
        b = ins[1]
        if not is_obj(b) or not has_z3(b):
            bn = to_numeric(b)
            if np.all(bn == np.round(bn)):
                return ew(lambda a, n: sc.integer_pow(a, int(n)), ins[0], bn.astype(np.int64))
        raise NotEncodable("pow with symbolic / non-integer exponent")

    def p_round(self, e, ins):
        m = e.params.get("rounding_method")
        even = "EVEN" in str(m) or "EVEN" in str(getattr(m, "name", ""))  # jax 0.11: str(RoundingMethod.TO_NEAREST_EVEN) == "1"
        return ew(sc.round_half_even if even else sc.round_half_away, ins[0])

    def p_clamp(self, e, ins):
        return ew(lambda lo, x, hi: sc.min_(sc.max_(x, lo), hi), ins[0], ins[1], ins[2])

    def p_is_finite(self, e, ins):
        return ew(lambda a: True if sc.is_symbolic_scalar(a) else bool(np.isfinite(float(a))), ins[0])

    def p_convert_element_type(self, e, ins):
        nd = np.dtype(e.params["new_dtype"])
        od = np.dtype(e.invars[0].aval.dtype)
        a = ins[0]
        if np.issubdtype(nd, np.bool_):
            return ew(lambda v: v if (isinstance(v, bool) or (isz(v) and z3.is_bool(v))) else sc.ne(v, 0), a)
        if np.issubdtype(nd, np.integer):
            if np.issubdtype(od, np.bool_):
                return ew(lambda v: sc.ite(v, 1, 0) if isz(v) else int(v), a)
            if np.issubdtype(od, np.integer):
                return a
            return ew(sc.trunc_to_int, a)
        if np.issubdtype(nd, np.floating):
            if np.issubdtype(od, np.bool_):
                return ew(lambda v: sc.ite(v, 1, 0) if isz(v) else int(v), a)
            if np.issubdtype(od, np.complexfloating):
                return ew(sc.real, a)
            return ew(lambda v: sc.toreal(v) if isz(v) else v, a)
        if np.issubdtype(nd, np.complexfloating):
            return ew(lambda v: v if isinstance(v, Cx) else Cx(sc.toreal(v) if isz(v) else (int(v) if isinstance(v, bool) else v), 0), a)
        raise NotEncodable(f"convert_element_type to {nd}")

    def p_complex(self, e, ins):
        return ew(lambda a, b: Cx(a, b), ins[0], ins[1])

    def p_iota(self, e, ins):
        raise NotEncodable("iota with symbolic operands")

    def p_erf_inv(self, e, ins):
        raise NotEncodable("erf_inv")

    def p_atan2(self, e, ins):
        raise NotEncodable("atan2 of symbolic values")

    # ------------------------------------------------------------------ reductions
    def _reduce(self, a, axes, f, init):
        a = lift(a)
        if axes is None:
            axes = tuple(range(a.ndim))
        axes = tuple(sorted(ax % max(a.ndim, 1) for ax in axes))
        if not axes:
            return a
        keep = [i for i in range(a.ndim) if i not in axes]
        b = np.transpose(a, list(axes) + keep)
        n = int(np.prod([a.shape[i] for i in axes])) if axes else 1
        b = b.reshape((n,) + tuple(a.shape[i] for i in keep))
        if n == 0:
            out = np.empty(b.shape[1:], dtype=object)
            out[...] = init
            return out
        acc = b[0]
        if not isinstance(acc, np.ndarray) or acc.shape == ():
            acc = obj0(b[0]) if not isinstance(b[0], np.ndarray) else acc
        for i in range(1, n):
            acc = ew(f, acc, b[i] if isinstance(b[i], np.ndarray) else obj0(b[i]))
        return acc if isinstance(acc, np.ndarray) else obj0(acc)

    def _reduce_bool(self, a, axes, f, init):
        if not is_obj(a):
            a = np.asarray(a)
            r = np.any(a) if f is sc.or_ else np.all(a)
            return np.asarray(r)
        return self._reduce(a, axes, f, init)

    def p_reduce_sum(self, e, ins):
        return self._reduce(ins[0], e.params["axes"], sc.add, 0)

    def p_reduce_max(self, e, ins):
        return self._reduce(ins[0], e.params["axes"], sc.max_, float("-inf"))

    def p_reduce_min(self, e, ins):
        return self._reduce(ins[0], e.params["axes"], sc.min_, float("inf"))

    def p_reduce_prod(self, e, ins):
        return self._reduce(ins[0], e.params["axes"], sc.mul, 1)

    def p_reduce_or(self, e, ins):
        return self._reduce(ins[0], e.params["axes"], sc.or_, False)

    def p_reduce_and(self, e, ins):
        return self._reduce(ins[0], e.params["axes"], sc.and_, True)

    def _argreduce(self, e, ins, better):
        a = lift(ins[0])
        axes = e.params["axes"]
        assert len(axes) == 1
        ax = axes[0]
        b = np.moveaxis(a, ax, 0)
        n = b.shape[0]
        best = b[0] if isinstance(b[0], np.ndarray) else obj0(b[0])
        besti = np.empty(best.shape, dtype=object)
        besti[...] = 0
        for i in range(1, n):
            cur = b[i] if isinstance(b[i], np.ndarray) else obj0(b[i])
            c = ew(better, cur, best)  # strictly better -> first occurrence wins on ties
            besti = ew(lambda c, bi, i=i: sc.ite(c, i, bi) if isz(c) else (i if c else bi), c, besti)
            best = ew(lambda c, x, y: sc.ite(c, x, y), c, cur, best)
        # Int-sorted result when symbolic
        def toint(v):
            if isz(v) and not z3.is_int(v):
                return z3.ToInt(v)
            return v
        return ew(toint, besti)

    def p_argmax(self, e, ins):
        return self._argreduce(e, ins, sc.gt)

    def p_argmin(self, e, ins):
        return self._argreduce(e, ins, sc.lt)

    def p_cumsum(self, e, ins):
        a = lift(ins[0])
        ax = e.params["axis"]
        rev = e.params.get("reverse", False)
        b = np.moveaxis(a, ax, 0)
        if rev:
            b = b[::-1]
        out = np.empty(b.shape, dtype=object)
        acc = None
        for i in range(b.shape[0]):
            cur = b[i] if isinstance(b[i], np.ndarray) else obj0(b[i])
            acc = cur if acc is None else ew(sc.add, acc, cur)
            out[i] = acc
        if rev:
            out = out[::-1]
        return np.moveaxis(out, 0, ax)

    # ------------------------------------------------------------------ contractions
    def p_dot_general(self, e, ins):
        (lc, rc), (lb, rb) = e.params["dimension_numbers"]
        a, b = lift(ins[0]), lift(ins[1])
        lfree = [i for i in range(a.ndim) if i not in lc and i not in lb]
        rfree = [i for i in range(b.ndim) if i not in rc and i not in rb]
        at = np.transpose(a, list(lb) + lfree + list(lc))
        bt = np.transpose(b, list(rb) + list(rc) + rfree)
        bs = [a.shape[i] for i in lb]
        ls = [a.shape[i] for i in lfree]
        rs = [b.shape[i] for i in rfree]
        cs = [a.shape[i] for i in lc]
        B, L, R, C = (int(np.prod(x)) if x else 1 for x in (bs, ls, rs, cs))
        at = at.reshape(B, L, C)
        bt = bt.reshape(B, C, R)
        out = np.empty((B, L, R), dtype=object)
        for bi in range(B):
            for i in range(L):
                for j in range(R):
                    acc = 0
                    for k in range(C):
                        acc = sc.add(acc, sc.mul(at[bi, i, k], bt[bi, k, j]))
                    out[bi, i, j] = acc
        return out.reshape(bs + ls + rs)

    def _linear_in(self, e, ins, pos):
        """out = J . ins[pos] for a primitive linear in operand ``pos`` whose other operands are concrete."""
        others = [None if i == pos else jnp.asarray(to_numeric(a, e.invars[i].aval.dtype) if is_obj(a) else a) for i, a in enumerate(ins)]
        x = lift(ins[pos])
        dt = e.invars[pos].aval.dtype
        def f(u):
            args = [u if i == pos else o for i, o in enumerate(others)]
            return e.primitive.bind(*args, **e.params)
        z = jnp.zeros(x.shape, dtype=dt)
        J = np.asarray(jax.jacfwd(f)(z))
        off = np.asarray(f(z))
        osz = off.size
        J = J.reshape(osz, x.size)
        out = np.empty(osz, dtype=object)
        xf = x.reshape(-1)
        offf = off.reshape(-1)
        for i in range(osz):
            acc = offf[i].item() if offf[i] != 0 else 0
            row = J[i]
            for j in np.nonzero(row)[0]:
                c = row[j].item()
                if c == int(c):
                    c = int(c)
                acc = sc.add(acc, sc.mul(c, xf[j]))
            out[i] = acc
        return out.reshape(off.shape)

    def p_custom_linear_solve(self, e, ins):
        """lax.custom_linear_solve (what jnp.linalg.solve becomes under jvp/vjp): x with matvec(x) = b.  Encoded only when
        every operator constant (matrix, LU factors, pivots) is concrete: then b -> x is a concrete linear map, taken
        from the primitive's own Jacobian."""
        cl = e.params["const_lengths"]
        nconst = sum(int(getattr(cl, f)) for f in ("matvec", "vecmat", "solve", "transpose_solve"))
        if len(ins) - nconst != 1 or len(e.outvars) != 1:
            raise NotEncodable("custom_linear_solve with a pytree right-hand side")
        if any(is_obj(a) and has_z3(a) for a in ins[:nconst]):
            raise NotEncodable("custom_linear_solve with a symbolic operator")
        consts = [jnp.asarray(to_numeric(a, e.invars[i].aval.dtype) if is_obj(a) else a) for i, a in enumerate(ins[:nconst])]
        x = lift(ins[-1])
        dt = e.invars[-1].aval.dtype

        def f(u):
            return e.primitive.bind(*consts, u, **e.params)[0]
        z = jnp.zeros(x.shape, dtype=dt)
        J = np.asarray(jax.jacfwd(f)(z)).reshape(x.size, x.size)
        out = np.empty(x.size, dtype=object)
        xf = x.reshape(-1)
        for i in range(x.size):
            acc = 0
            for j in np.nonzero(J[i])[0]:
                cc = J[i, j].item()
                if cc == int(cc):
                    cc = int(cc)
                acc = sc.add(acc, sc.mul(cc, xf[j]))
            out[i] = acc
        return [out.reshape(x.shape)]

    def _conv_onehot(self, e, ins):
        """convolution of a large symbolic lhs with a concrete kernel of few taps, without the dense Jacobian: for each
        non-zero tap the primitive itself is run on an id array with the one-hot kernel (pure data movement: every output
        is one input entry or 0), the ids are mapped back to terms, scaled by the tap and summed.  Returns None if the
        call does not fit (then the dense route is taken)."""
        prm = e.params
        if prm.get("feature_group_count", 1) != 1 or prm.get("batch_group_count", 1) != 1:
            return None
        dt = np.dtype(e.invars[0].aval.dtype)
        if not np.issubdtype(dt, np.floating) or dt.itemsize < 4:
            return None
        lhs = lift(ins[0])
        rhs = np.asarray(to_numeric(ins[1]) if is_obj(ins[1]) else ins[1])
        taps = list(zip(*np.nonzero(rhs)))
        if len(taps) > 64 or (dt.itemsize == 4 and lhs.size >= 2**24 - 1):
            return None
        ids = jnp.asarray(np.arange(1, lhs.size + 1).reshape(lhs.shape).astype(dt))
        pool = np.empty(lhs.size + 1, dtype=object)
        pool[0] = 0
        # equal concrete scalars share one object, so that identical (a, b) operand pairs are recognised by identity below
        table = {}
        pool[1:] = np.frompyfunc(lambda v: v if (isz(v) or isinstance(v, Cx)) else table.setdefault((type(v), v), v), 1, 1)(lhs.reshape(-1)) if lhs.size else lhs.reshape(-1)
        out = None
        for tap in taps:
            k = np.zeros(rhs.shape, dtype=e.invars[1].aval.dtype)
            k[tap] = 1
            moved = np.asarray(e.primitive.bind(ids, jnp.asarray(k), **prm))
            mi = np.rint(moved).astype(np.int64)
            if not np.array_equal(mi.astype(moved.dtype), moved) or mi.min(initial=0) < 0 or mi.max(initial=0) > lhs.size:
                return None
            term = pool[mi]
            coef = rhs[tap].item()
            if coef != 1:
                if coef == int(coef):
                    coef = int(coef)
                term = ew(lambda v, coef=coef: sc.mul(coef, v), term)
            out = term if out is None else _ew2_dedup(sc.add, out, term)
        if out is None:
            out = lift(np.zeros(e.outvars[0].aval.shape))
        return out

    def p_gather(self, e, ins):
        """gather with *symbolic* indices into one operand dimension (``A[idx]``): the gather is executed by JAX once per
        possible index value and the results are merged with an If chain on the controlling index entry.  Concrete
        indices take the ordinary data-movement route.  In-range indices are recorded as a side condition."""
        operand, indices = ins[0], ins[1]
        if not (is_obj(indices) and has_z3(indices)):
            return self._move(e, ins)
        dn = e.params["dimension_numbers"]
        if len(dn.start_index_map) != 1 or tuple(getattr(dn, "operand_batching_dims", ())) or tuple(getattr(dn, "start_indices_batching_dims", ())):
            raise NotEncodable("gather with symbolic indices into more than one operand dimension")
        dim = dn.start_index_map[0]
        nk = np.shape(operand)[dim] - e.params["slice_sizes"][dim] + 1
        idx = lift(indices)
        if idx.shape[-1] != 1:
            raise NotEncodable("gather: symbolic index vector of length != 1")
        outs = [lift(self._move(e, [operand, np.full(idx.shape, k, dtype=e.invars[1].aval.dtype)])) for k in range(nk)]
        oshape = outs[0].shape
        bpos = [d for d in range(len(oshape)) if d not in tuple(dn.offset_dims)]
        res = np.empty(oshape, dtype=object)
        seen = set()
        for p in np.ndindex(*oshape):
            ip = tuple(p[d] for d in bpos) + (0,)
            iv = idx[ip]
            if isz(iv) and ip not in seen:
                seen.add(ip)
                self._side("gather_in_range", z3.And(iv >= 0, iv <= nk - 1), "symbolic gather index within the operand")
            acc = outs[nk - 1][p]
            for k in range(nk - 2, -1, -1):
                acc = sc.ite(sc.eq(iv, k), outs[k][p], acc)
            res[p] = acc
        return res

    def p_conv_general_dilated(self, e, ins):
        l, r = ins
        if is_obj(l) and not (is_obj(r) and has_z3(r)) and lift(l).size * int(np.prod(e.outvars[0].aval.shape)) > 4_000_000:
            # the dense Jacobian of the generic route would not fit: sparse one-hot route (large inputs only)
            res = self._conv_onehot(e, ins)
            if res is not None:
                return res
        if is_obj(l) and has_z3(l) and not (is_obj(r) and has_z3(r)):
            return self._linear_in(e, ins, 0)
        if is_obj(r) and has_z3(r) and not (is_obj(l) and has_z3(l)):
            return self._linear_in(e, ins, 1)
        if not has_z3(l) and not has_z3(r):
            # exact Fractions only: treat lhs as the "symbolic" operand
            return self._linear_in(e, ins, 0)
        raise NotEncodable("convolution of two symbolic operands")

    def p_reduce_window_sum(self, e, ins):
        return self._linear_in(e, ins, 0)

    def p_sort(self, e, ins):
        raise NotEncodable("sort of symbolic values")

    def p_tile(self, e, ins):
        # jnp.tile (a primitive since jax 0.11): pure data movement of operand 0
        return self._move(e, ins, value_pos=(0,))

    # ------------------------------------------------------------------ stubs
    def _linalg_stub(self, name, e, ins):
        """jnp.linalg.solve / inv on small batched square systems: exact Gaussian elimination without pivot search
        over the scalar domain (contract A.X = B).  Returns None if the call does not look like solve/inv."""
        outs = e.outvars
        if name in ("solve", "_solve", "_lu_solve") and len(ins) == 2 and len(outs) == 1:
            A, Bm = lift(ins[0]), lift(ins[1])
            n = A.shape[-1]
            if A.shape[-2] != n:
                return None
            vec = Bm.ndim == A.ndim - 1
            if vec:
                Bm = Bm[..., None]
            bshape = np.broadcast_shapes(A.shape[:-2], Bm.shape[:-2])
            A = np.broadcast_to(A, bshape + A.shape[-2:])
            Bm = np.broadcast_to(Bm, bshape + Bm.shape[-2:])
            out = np.empty(Bm.shape, dtype=object)
            for idx in (np.ndindex(*bshape) if bshape else [()]):
                out[idx] = self._solve_small(A[idx], Bm[idx])
            if vec:
                out = out[..., 0]
            if tuple(out.shape) != tuple(outs[0].aval.shape):
                return None
            return [out]
        if name == "inv" and len(ins) == 1 and len(outs) == 1:
            A = lift(ins[0])
            n = A.shape[-1]
            eye = np.empty((n, n), dtype=object)
            for i in range(n):
                for j in range(n):
                    eye[i, j] = 1 if i == j else 0
            out = np.empty(A.shape, dtype=object)
            bshape = A.shape[:-2]
            for idx in (np.ndindex(*bshape) if bshape else [()]):
                out[idx] = self._solve_small(A[idx], eye)
            return [out]
        return None

    def _solve_small(self, A, B):
        """Cramer's rule (adjugate) for n<=3; side condition det != 0."""
        n = A.shape[0]
        if n > 3:
            raise NotEncodable("linear solve with n > 3")
        def det(M):
            if M.shape[0] == 1:
                return M[0, 0]
            if M.shape[0] == 2:
                return sc.sub(sc.mul(M[0, 0], M[1, 1]), sc.mul(M[0, 1], M[1, 0]))
            acc = 0
            for j in range(3):
                minor = np.delete(np.delete(M, 0, 0), j, 1)
                t = sc.mul(M[0, j], det(minor))
                acc = sc.add(acc, t) if j % 2 == 0 else sc.sub(acc, t)
            return acc
        d = det(A)
        if sc.is_symbolic_scalar(d):
            self._side("det_nonzero", sc.toz(d) != 0, "matrix of linear solve is non-singular")
        out = np.empty(B.shape, dtype=object)
        for c in range(B.shape[1]):
            for i in range(n):
                M = A.copy()
                M[:, i] = B[:, c]
                out[i, c] = sc.div(det(M), d)
        return out

    def _side(self, kind, must_hold, desc):
        self.side.append((kind, must_hold, desc))


# --------------------------------------------------------------------------- front end


def _leaf_example(x, dtype=None):
    if is_obj(x):
        flat = x.reshape(-1)
        cplx = any(isinstance(v, Cx) for v in flat)
        isb = len(flat) > 0 and all(isinstance(v, bool) or (isz(v) and z3.is_bool(v)) for v in flat)
        isi = len(flat) > 0 and all((isinstance(v, int) and not isinstance(v, bool)) or (isz(v) and z3.is_int(v)) for v in flat)
        if dtype is None:
            dtype = np.complex128 if cplx else (np.bool_ if isb else (np.int32 if isi else np.float64))
        return jnp.zeros(x.shape, dtype=dtype)
    return x


class Traced:
    """A function traced to a jaxpr once (from the current /repo source) and interpretable many times."""

    def __init__(self, fn, example_args, dtypes=None):
        flat, self.in_tree = jax.tree_util.tree_flatten(example_args, is_leaf=is_obj)
        dtypes = dtypes or {}
        ex = [_leaf_example(x, dtypes.get(i)) for i, x in enumerate(flat)]
        self.n_in = len(flat)
        t0 = time.time()
        def flat_fn(*leaves):
            args = jax.tree_util.tree_unflatten(self.in_tree, leaves)
            return fn(*args)
        self.closed, out_shape = jax.make_jaxpr(flat_fn, return_shape=True)(*ex)
        self.out_tree = jax.tree_util.tree_structure(out_shape)
        self.trace_s = time.time() - t0
        self.n_eqns = count_eqns(self.closed.jaxpr)

    def __call__(self, *args, interp=None):
        flat, tree = jax.tree_util.tree_flatten(args, is_leaf=is_obj)
        assert tree == self.in_tree, "argument structure differs from the traced one"
        it = interp or Interp()
        self.last_interp = it
        outs = it.run(self.closed.jaxpr, self.closed.consts, flat)
        return jax.tree_util.tree_unflatten(self.out_tree, outs)


def call(fn, *args, interp=None, dtypes=None):
    """trace ``fn`` at the shapes of ``args`` (object-array leaves are the symbolic inputs) and interpret it."""
    tr = Traced(fn, args, dtypes)
    out = tr(*args, interp=interp)
    return out, tr


def count_eqns(jaxpr):
    n = 0
    for e in jaxpr.eqns:
        n += 1
        for v in e.params.values():
            for sub in (v if isinstance(v, (list, tuple)) else [v]):
                j = getattr(sub, "jaxpr", sub)
                if hasattr(j, "eqns"):
                    n += count_eqns(j)
    return n


def primitives_of(jaxpr, acc=None):
    acc = acc if acc is not None else {}
    for e in jaxpr.eqns:
        acc[e.primitive.name] = acc.get(e.primitive.name, 0) + 1
        for v in e.params.values():
            for sub in (v if isinstance(v, (list, tuple)) else [v]):
                j = getattr(sub, "jaxpr", sub)
                if hasattr(j, "eqns"):
                    primitives_of(j, acc)
    return acc
