"""E2 ``pysym``: concolic execution of the real Python source.

``SymNum`` (z3 Int or Real) and ``SymBool`` build z3 terms through operator overloading.  ``bool(SymBool)`` asks the
explorer which branch sides are feasible under the current path condition; the driver re-executes the *real function*
depth-first over all feasible decision sequences (DART scheme, deterministic, exhaustive within the declared input
ranges).  ``__index__``/``__int__`` fork on every feasible concrete value.  Per path the post-condition (a z3 formula
over inputs and the symbolic result) is discharged by z3 under the path condition.
"""
from __future__ import annotations

import math
from fractions import Fraction

import z3


class PathAbort(BaseException):
    """infeasible path / budget exhausted (BaseException: must not be swallowed by `except Exception` in analysed code)."""


class Budget(BaseException):
    pass


_CUR = None


def cur():
    if _CUR is None:
        raise RuntimeError("symbolic value used outside an exploration")
    return _CUR


def _zconst(x):
    if isinstance(x, bool):
        return z3.BoolVal(x)
    if isinstance(x, int):
        return z3.IntVal(x)
    if isinstance(x, Fraction):
        return z3.RealVal(x)
    if isinstance(x, float):
        if math.isinf(x) or math.isnan(x):
            raise _Inf(x)
        return z3.RealVal(Fraction(x))
    try:
        import numpy as np

        if isinstance(x, np.bool_):
            return z3.BoolVal(bool(x))
        if isinstance(x, np.integer):
            return z3.IntVal(int(x))
        if isinstance(x, np.floating):
            return _zconst(float(x))
    except ImportError:
        pass
    if _is0d(x):  # 0-d array scalar that is not a numpy scalar (e.g. a concrete jax array element)
        return _zconst(x.item())
    raise TypeError(f"cannot lift {type(x)} into z3")


def _is0d(x):
    return getattr(x, "shape", None) == () and hasattr(x, "dtype") and hasattr(x, "item") and not isinstance(x, (SymNum, SymBool))


class _Inf(Exception):
    def __init__(self, v):
        self.v = v


def term(x):
    if isinstance(x, (SymNum, SymBool)):
        return x.t
    if isinstance(x, z3.ExprRef):
        return x
    return _zconst(x)


def _arith_pair(a, b):
    a, b = term(a), term(b)
    if z3.is_bool(a):
        a = z3.If(a, z3.IntVal(1), z3.IntVal(0))
    if z3.is_bool(b):
        b = z3.If(b, z3.IntVal(1), z3.IntVal(0))
    if a.sort() != b.sort():
        if z3.is_int(a):
            a = z3.ToReal(a)
        if z3.is_int(b):
            b = z3.ToReal(b)
    return a, b


class SymBool:
    __slots__ = ("t",)

    def __init__(self, t):
        self.t = t

    def __bool__(self):
        return cur().branch(self.t)

    def __and__(self, o):
        return SymBool(z3.And(self.t, _b(o)))

    __rand__ = __and__

    def __or__(self, o):
        return SymBool(z3.Or(self.t, _b(o)))

    __ror__ = __or__

    def __invert__(self):
        return SymBool(z3.Not(self.t))

    def __xor__(self, o):
        return SymBool(z3.Xor(self.t, _b(o)))

    def __eq__(self, o):
        return SymBool(self.t == _b(o))

    def __ne__(self, o):
        return SymBool(self.t != _b(o))

    __hash__ = None

    # sum([...bools...]) support
    def _asint(self):
        return SymNum(z3.If(self.t, z3.IntVal(1), z3.IntVal(0)))

    def __add__(self, o):
        return self._asint() + o

    def __radd__(self, o):
        return o + self._asint()

    def __int__(self):
        return 1 if bool(self) else 0

    def __repr__(self):
        return f"SymBool({self.t})"


def _b(o):
    if isinstance(o, SymBool):
        return o.t
    if isinstance(o, (bool, int)):
        return z3.BoolVal(bool(o))
    if isinstance(o, z3.BoolRef):
        return o
    raise TypeError(type(o))


class SymNum:
    def __format__(self, spec):  # error messages of the analysed code format their operands: never a reason to abort a path
        return f"<sym {self.t}>"

    __slots__ = ("t",)

    def __init__(self, t):
        self.t = t

    @property
    def is_int(self):
        return z3.is_int(self.t)

    def _bin(self, o, f, rev=False):
        if isinstance(o, (SymNum, SymBool, int, float, Fraction, bool)) or _isnp(o):
            try:
                a, b = _arith_pair(self, o)
            except _Inf as e:
                return NotImplemented
            if rev:
                a, b = b, a
            return SymNum(f(a, b))
        return NotImplemented

    def __add__(self, o):
        return self._bin(o, lambda a, b: a + b)

    def __radd__(self, o):
        return self._bin(o, lambda a, b: a + b, True)

    def __sub__(self, o):
        return self._bin(o, lambda a, b: a - b)

    def __rsub__(self, o):
        return self._bin(o, lambda a, b: a - b, True)

    def __mul__(self, o):
        return self._bin(o, lambda a, b: a * b)

    def __rmul__(self, o):
        return self._bin(o, lambda a, b: a * b, True)

    def _div(self, a, b):
        if z3.is_int(a):
            a = z3.ToReal(a)
        if z3.is_int(b):
            b = z3.ToReal(b)
        cur().require_nonzero(b)
        return a / b

    def __truediv__(self, o):
        return self._bin(o, self._div)

    def __rtruediv__(self, o):
        return self._bin(o, self._div, True)

    def _floordiv(self, a, b):
        cur().require_nonzero(b)
        if z3.is_int(a) and z3.is_int(b):
            # python floor division: z3 int div rounds toward -inf only for positive divisors
            return z3.If(b > 0, a / b, (-a) / (-b))
        if z3.is_int(a):
            a = z3.ToReal(a)
        if z3.is_int(b):
            b = z3.ToReal(b)
        return z3.ToReal(z3.ToInt(a / b))

    def __floordiv__(self, o):
        return self._bin(o, self._floordiv)

    def __rfloordiv__(self, o):
        return self._bin(o, self._floordiv, True)

    def _mod(self, a, b):
        cur().require_nonzero(b)
        if z3.is_int(a) and z3.is_int(b):
            # python: result has the sign of the divisor
            m = a % b  # z3: non-negative result
            return z3.If(b > 0, m, z3.If(m == 0, m, m + b))
        if z3.is_int(a):
            a = z3.ToReal(a)
        if z3.is_int(b):
            b = z3.ToReal(b)
        return a - z3.ToReal(z3.ToInt(a / b)) * b

    def __mod__(self, o):
        return self._bin(o, self._mod)

    def __rmod__(self, o):
        return self._bin(o, self._mod, True)

    def __pow__(self, n):
        if isinstance(n, int) and 0 <= n <= 8:
            r = SymNum(z3.IntVal(1) if self.is_int else z3.RealVal(1))
            for _ in range(n):
                r = r * self
            return r
        if isinstance(n, int) and -8 <= n < 0:
            return 1 / (self ** (-n))
        if isinstance(n, float) and n == 0.5:
            return sym_sqrt(self)
        raise NotImplementedError(f"SymNum ** {n!r}")

    def __neg__(self):
        return SymNum(-self.t)

    def __pos__(self):
        return self

    def __abs__(self):
        return SymNum(z3.If(self.t >= 0, self.t, -self.t))

    def _cmp(self, o, f, inf_lt):
        try:
            a, b = _arith_pair(self, o)
        except _Inf as e:
            # comparison with +-inf / nan is decided concretely
            if math.isnan(e.v):
                return False
            return inf_lt(e.v > 0)
        except TypeError:
            return NotImplemented
        return SymBool(f(a, b))

    def __lt__(self, o):
        return self._cmp(o, lambda a, b: a < b, lambda pos: pos)

    def __le__(self, o):
        return self._cmp(o, lambda a, b: a <= b, lambda pos: pos)

    def __gt__(self, o):
        return self._cmp(o, lambda a, b: a > b, lambda pos: not pos)

    def __ge__(self, o):
        return self._cmp(o, lambda a, b: a >= b, lambda pos: not pos)

    def __eq__(self, o):
        if o is None:
            return False
        return self._cmp(o, lambda a, b: a == b, lambda pos: False)

    def __ne__(self, o):
        if o is None:
            return True
        return self._cmp(o, lambda a, b: a != b, lambda pos: True)

    __hash__ = None

    def __bool__(self):
        return bool(SymBool(self.t != 0))

    # ---- rounding
    def __floor__(self):
        return self if self.is_int else SymNum(z3.ToInt(self.t))

    def __ceil__(self):
        return self if self.is_int else SymNum(-z3.ToInt(-self.t))

    def __trunc__(self):
        if self.is_int:
            return self
        return SymNum(z3.If(self.t >= 0, z3.ToInt(self.t), -z3.ToInt(-self.t)))

    def __round__(self, nd=None):
        if self.is_int:
            return self
        if nd not in (None, 0):
            raise NotImplementedError("round(x, n) for symbolic x")
        f = z3.ToInt(self.t)
        d = self.t - z3.ToReal(f)
        h = z3.RealVal(Fraction(1, 2))
        return SymNum(z3.If(d < h, f, z3.If(d > h, f + 1, z3.If(f % 2 == 0, f, f + 1))))

    # ---- concretisation points
    def __index__(self):
        if not self.is_int:
            raise TypeError("symbolic real used as index")
        return cur().concretize(self.t)

    def __int__(self):
        t = self.t if self.is_int else self.__trunc__().t
        return cur().concretize(t)

    def __float__(self):
        # real-number model: float() of a symbolic number cannot return a SymNum (Python insists on float);
        # analysed modules get `float` rebound to `symfloat` instead (see stub_module)
        raise TypeError("float() on a symbolic number: rebind float->pysym.symfloat in the analysed module")

    def __repr__(self):
        return f"Sym({self.t})"


def _isnp(o):
    try:
        import numpy as np

        return isinstance(o, np.generic) or _is0d(o)
    except ImportError:
        return False


def symfloat(x=0.0):
    if isinstance(x, SymNum):
        return SymNum(z3.ToReal(x.t)) if x.is_int else x
    if isinstance(x, SymBool):
        return x._asint()
    return float(x)


def symint(x=0, *a):
    if isinstance(x, SymNum):
        return x.__trunc__()
    if isinstance(x, SymBool):
        return x._asint()
    return int(x, *a)


def symround(x, nd=None):
    if isinstance(x, SymNum):
        return x.__round__(nd)
    return round(x, nd) if nd is not None else round(x)


def symabs(x):
    return abs(x)


def symmin(*a, **k):
    return min(*a, **k)


def isclose(a, b, rel_tol=1e-9, abs_tol=0.0):
    if isinstance(a, SymNum) or isinstance(b, SymNum):
        d = abs(a - b)
        return (d <= rel_tol * abs(a)) | (d <= rel_tol * abs(b)) | (d <= abs_tol) if True else None
    return math.isclose(a, b, rel_tol=rel_tol, abs_tol=abs_tol)


_SQRT = z3.Function("pysym_sqrt", z3.RealSort(), z3.RealSort())


def sym_sqrt(x):
    if not isinstance(x, SymNum):
        return math.sqrt(x)
    a = z3.ToReal(x.t) if x.is_int else x.t
    s = _SQRT(a)
    cur().assume(z3.Implies(a >= 0, z3.And(s >= 0, s * s == a)))
    return SymNum(s)


def ite(c, a, b):
    """symbolic if-then-else without forking."""
    if not isinstance(c, SymBool):
        return a if c else b
    x, y = _arith_pair(a, b)
    return SymNum(z3.If(c.t, x, y))


# ----------------------------------------------------------------------------------------------------- explorer


class Explorer:
    def __init__(self, assumptions=(), max_paths=20000, timeout_ms=20000, int_range=64):
        self.assumptions = list(assumptions)
        self.max_paths = max_paths
        self.timeout_ms = timeout_ms
        self.int_range = int_range
        self.paths = 0
        self.queries = 0
        self.concretisations = 0
        self.solver_s = 0.0
        self.unknown = 0
        self.aborted = 0

    # -- solver helper
    def _sat(self, extra):
        import time

        s = z3.Solver()
        s.set("timeout", self.timeout_ms)
        s.add(*self.assumptions, *self.pc, *extra)
        t0 = time.time()
        r = s.check()
        self.solver_s += time.time() - t0
        self.queries += 1
        if r == z3.unknown:
            self.unknown += 1
        return r, s

    # -- called from SymBool.__bool__
    def branch(self, cond):
        cond = z3.simplify(cond)
        if z3.is_true(cond):
            return True
        if z3.is_false(cond):
            return False
        i = len(self.decisions)
        if i < len(self.prefix):
            d = self.prefix[i]
            if not isinstance(d, bool):
                raise RuntimeError("non-deterministic replay (branch vs concretisation)")
        else:
            feas = []
            for cand in (True, False):
                r, _ = self._sat([cond if cand else z3.Not(cond)])
                if r == z3.sat:
                    feas.append(cand)
                elif r == z3.unknown:
                    feas.append(cand)  # keep exploring: soundness of the final verdict needs all possibly-feasible paths
            if not feas:
                raise PathAbort()
            d = feas[0]
            for other in feas[1:]:
                self.todo.append(self.decisions + [other])
        self.decisions.append(d)
        self.pc.append(cond if d else z3.Not(cond))
        return d

    def concretize(self, t):
        t = z3.simplify(t)
        if z3.is_int_value(t):
            return t.as_long()
        i = len(self.decisions)
        if i < len(self.prefix):
            v = self.prefix[i]
            if isinstance(v, bool):
                raise RuntimeError("non-deterministic replay (concretisation vs branch)")
            v = v[1]
        else:
            vals = []
            extra = []
            while len(vals) <= self.int_range:
                r, s = self._sat([t != x for x in vals])
                if r != z3.sat:
                    if r == z3.unknown:
                        raise Budget("unknown while enumerating concretisations")
                    break
                vals.append(s.model().eval(t, model_completion=True).as_long())
            if len(vals) > self.int_range:
                raise Budget(f"more than {self.int_range} feasible values at a concretisation point")
            if not vals:
                raise PathAbort()
            self.concretisations += len(vals)
            v = vals[0]
            for other in vals[1:]:
                self.todo.append(self.decisions + [("c", other)])
        self.decisions.append(("c", v))
        self.pc.append(t == v)
        return v

    def assume(self, f):
        self.pc.append(f)

    def require_nonzero(self, b):
        """division: fork into the ZeroDivisionError path when the divisor can be zero."""
        if z3.is_rational_value(b) or z3.is_int_value(b):
            if z3.simplify(b == 0) == True:  # noqa: E712
                raise ZeroDivisionError("division by zero")
            return
        if self.branch(b == 0):
            raise ZeroDivisionError("symbolic division by zero")

    # -- driver
    def explore(self, fn, on_path):
        """fn() -> result (may raise); on_path(result, exc, pc) is called once per completed path with the path
        condition (list of z3 Bools, including the assumptions)."""
        global _CUR
        self.todo = [[]]
        while self.todo:
            self.prefix = self.todo.pop()
            self.decisions = []
            self.pc = []
            if self.paths >= self.max_paths:
                raise Budget(f"path budget {self.max_paths} exhausted")
            _CUR = self
            res = exc = None
            try:
                res = fn()
            except PathAbort:
                self.aborted += 1
                _CUR = None
                continue
            except Budget:
                _CUR = None
                raise
            except Exception as e:  # noqa: BLE001  (the analysed code's own exception = an outcome of this path)
                exc = e
            self.paths += 1
            try:
                on_path(res, exc, list(self.assumptions) + list(self.pc))
            finally:
                _CUR = None
        _CUR = None


def fresh_int(name, lo=None, hi=None):
    v = z3.Int(name)
    cons = []
    if lo is not None:
        cons.append(v >= lo)
    if hi is not None:
        cons.append(v <= hi)
    return SymNum(v), cons


def fresh_real(name, lo=None, hi=None, lo_strict=False, hi_strict=False):
    v = z3.Real(name)
    cons = []
    if lo is not None:
        cons.append(v > lo if lo_strict else v >= lo)
    if hi is not None:
        cons.append(v < hi if hi_strict else v <= hi)
    return SymNum(v), cons


def fresh_bool(name):
    return SymBool(z3.Bool(name))


class stub_module:
    """context manager: rebind names in an analysed module's namespace (float -> symfloat, math.isclose -> isclose ...)."""

    def __init__(self, module, **names):
        self.module = module
        self.names = names or dict(float=symfloat, int=symint, round=symround)
        self.saved = {}

    def __enter__(self):
        for k, v in self.names.items():
            self.saved[k] = self.module.__dict__.get(k, _MISSING)
            self.module.__dict__[k] = v
        return self

    def __exit__(self, *a):
        for k, v in self.saved.items():
            if v is _MISSING:
                del self.module.__dict__[k]
            else:
                self.module.__dict__[k] = v


_MISSING = object()
