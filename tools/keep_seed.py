#!/usr/bin/env python3
"""tools/keep_seed.py PROP STATUS NOTE : copy /tmp/seed_PROP_out into seeded/PROP (or seeded/PROP-n), annotate meta.json."""
import json, os, shutil, sys
prop, status, note = sys.argv[1], sys.argv[2], sys.argv[3]
src = f"/tmp/seed_{prop}_out"
dst = os.path.join("/verif/seeded", prop)
n = 1
while os.path.exists(dst):
    n += 1
    dst = os.path.join("/verif/seeded", f"{prop}-{n}")
os.makedirs(dst)
for f in ("patch.diff", "demo.py", "meta.json"):
    shutil.copy(os.path.join(src, f), dst)
m = json.load(open(os.path.join(dst, "meta.json")))
m["breaks_property"] = prop.rstrip("bcd")
m["property"] = prop.rstrip("bcd")
m["confirmed_by_me"] = "demo.py exits 0 on /repo and 1 on a scratch copy with patch.diff applied (tools/try_seed.sh); patch applies cleanly"
m["check_result"] = status
m["check_note"] = note
json.dump(m, open(os.path.join(dst, "meta.json"), "w"), indent=1)
print("kept", dst)
