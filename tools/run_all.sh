#!/bin/sh
# tools/run_all.sh [quick|thorough] : run every claimed check once against /repo, sequentially; one summary line per check
T="${1:-quick}"; cd /verif
for p in $(python3 -c "import json; print(' '.join(c['property_id'] for c in json.load(open('MANIFEST.json'))['checks']))"); do
  s=$(date +%s); out=$(timeout ${2:-3000} ./check $p --tier $T 2>&1); e=$?
  echo "$p exit=$e wall=$(( $(date +%s) - s ))s $(echo "$out" | grep "^\[$p\]" | cut -c1-170)"
  echo "$out" | grep "VIOLATION\|KNOWN-FINDING\|INCONCLUSIVE" | head -3 | cut -c1-300
done
