#!/bin/sh
# tools/seed_regress.sh [ids...] : re-run every kept seeded change (seeded/<id>/) through tools/try_seed.sh and print one line each
# (expected: demo unpatched 0 / patched 1, at least one VIOLATION line from the property's quick check on the patched scratch copy)
cd /verif
ids="$@"; [ -z "$ids" ] && ids=$(ls seeded)
for d in $ids; do
  p=$(echo "$d" | sed 's/[bcd]$//; s/-[0-9]*$//')
  out=$(tools/try_seed.sh /verif/seeded/$d $p 2>&1)
  n=$(echo "$out" | grep -c "^VIOLATION")
  echo "$d prop=$p $(echo "$out" | grep '^demo:') violations=$n $(echo "$out" | grep "^\[$p\]" | cut -c1-60)"
done
