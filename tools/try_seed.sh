#!/bin/sh
# tools/try_seed.sh <dir with patch.diff + demo.py> <PROP> [tier] : confirm the seeded change (demo passes unpatched, fails
# patched) and run the property's check against a scratch copy of /repo with the patch applied (FDTDX_REPO), never /repo itself.
D="$1"; P="$2"; T="${3:-quick}"
S=/tmp/seedrun_${P}_$$
rm -rf "$S"; mkdir -p "$S"; cp -r /repo/src "$S/src"; cp -r /repo/tests "$S/tests" 2>/dev/null
(cd /repo && PYTHONPATH=/repo/src JAX_PLATFORMS=cpu timeout 900 /venv/bin/python "$D/demo.py" >$S.unpatched.log 2>&1); U=$?
(cd "$S" && patch -p1 -s < "$D/patch.diff") || { echo "patch does not apply"; exit 2; }
(cd "$S" && PYTHONPATH="$S/src" JAX_PLATFORMS=cpu timeout 900 /venv/bin/python "$D/demo.py" >$S.patched.log 2>&1); C=$?
echo "demo: unpatched exit=$U patched exit=$C"
cd /verif && FDTDX_REPO="$S" timeout 3000 ./check "$P" --tier "$T" --jobs 4 2>&1 | grep -v "jax.debug" | grep "VIOLATION\|KNOWN\|^\[$P\|INCONCLUSIVE" | head -8 | cut -c1-400
echo "check exit=$?"
rm -rf "$S" "$S.unpatched.log" "$S.patched.log"
